#!/bin/bash
# usage: tools/repo_commit.sh "<commit message>"  - commits the working tree of /repo only if the unedited 180-test baseline passes
cd /repo || exit 1
out=$(/venv/bin/python -m pytest -q -p no:cacheprovider 2>&1 | tail -1)
echo "$out"
case "$out" in
  "180 passed"*) git commit -qam "$1" && git log --oneline | head -1 ;;
  *) echo "NOT COMMITTED: baseline does not pass"; exit 1 ;;
esac
