#!/venv/bin/python
"""record_r6.py <seed-scan.json> <extension-scan.json>: write `detected_by` into the meta.json of the round-6 seeded changes.
Round 6 comes in pairs (extensions/Cnn-k = the commit done right, seeded/Cnn-r6-k = the same commit with one slip), and detection is
differential: only findings that the slip has and the correct commit does not have count.  The properties for which the *correct*
commit is reported as well are recorded too (`twin_alarms`): those are false alarms of the checks on code they have not seen before."""
import json, os, sys
S = {r['dir'].rstrip('/').split('/')[-1]: r for r in json.load(open(sys.argv[1]))}
E = {r['dir'].rstrip('/').split('/')[-1]: r for r in json.load(open(sys.argv[2]))}


def keyed(r):
    out = {}
    for p, v in r.get('checks', {}).items():
        if isinstance(v, str):
            out.setdefault(p, set()).add('AE')
        else:
            for f in v:
                out.setdefault(p, set()).add(f.split(' @')[0])
    return out


n_own = n_all = 0
for name, g in sorted(E.items()):
    p, k = name.split('-')
    sname = '%s-r6-%s' % (p, k)
    if sname not in S:
        continue
    gk, bk = keyed(g), keyed(S[sname])
    det = {}
    for prop, fs in bk.items():
        only = sorted(f for f in fs - gk.get(prop, set()) if f != 'AE')
        if only:
            det[prop] = only[:4]
    mp = '/verif/seeded/%s/meta.json' % sname
    meta = json.load(open(mp))
    meta['detected_by'] = det
    meta['detected_by_own_property_check'] = p in det
    meta['detection'] = 'differential: findings on this change that extensions/%s (the same commit without the slip) does not have' % name
    meta['twin_alarms'] = sorted(gk)
    json.dump(meta, open(mp, 'w'), indent=1)
    em = '/verif/extensions/%s/meta.json' % name
    if os.path.exists(em):
        m2 = json.load(open(em))
        m2['alarms_at_last_scan'] = {q: sorted(v)[:4] for q, v in sorted(gk.items())}
        json.dump(m2, open(em, 'w'), indent=1)
    n_all += 1
    n_own += p in det
    print(sname, 'OWN' if p in det else ('other' if det else '-'), sorted(det), '| twin alarms:', sorted(gk))
print('%d of %d round-6 changes distinguished from their correct twin by their own property\'s check' % (n_own, n_all))
