#!/venv/bin/python
"""dumpfn.py <repo> <module> <name>...: print the canonical (inlined + normalised) form of functions"""
import ast, sys
sys.path.insert(0, '/verif')
from sa.model import load_program
P = load_program(sys.argv[1])
m = P.modules[sys.argv[2]]
for l in getattr(m, 'decomposition_log', []) or []:
    print('#', l)
for n in ast.walk(m.tree):
    if isinstance(n, ast.FunctionDef) and n.name in sys.argv[3:]:
        print(ast.unparse(n)); print()
