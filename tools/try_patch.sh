#!/bin/bash
# usage: tools/try_patch.sh <patch.diff> [props...]   - runs the quick checks against a scratch copy of /repo with the patch applied
set -u
PATCH=$(readlink -f "$1"); shift
PROPS=${@:-C01 C02 C03 C04 C05 C06 C07 C08 C09 C10 C11 C12 C13 C14 C15 C16 C17 C18}
D=$(mktemp -d /tmp/trypatch.XXXXXX)
mkdir -p $D/repo && cp -r /repo/yatiml $D/repo/ && (cd $D/repo && patch -s -p1 < "$PATCH") || { echo "patch failed"; rm -rf $D; exit 3; }
cd /verif
for p in $PROPS; do
  [ -f sa/rules/${p,,}.py ] || continue
  out=$(YATIML_REPO=$D/repo VERIF_NO_EVIDENCE=1 /venv/bin/python -m sa.check $p 2>&1); rc=$?
  if [ $rc -ne 0 ]; then echo "== $p rc=$rc"; echo "$out" | grep -v "^KNOWN-FINDING" | head -${TP_LINES:-6}; fi
done
rm -rf $D
