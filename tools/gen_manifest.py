#!/venv/bin/python
"""Regenerate /verif/MANIFEST.json from the rule modules' META blocks (level, texts) - run after adding a check."""
import importlib, json, os, sys
sys.path.insert(0, os.path.dirname(os.path.dirname(os.path.abspath(__file__))))
props = [json.loads(l) for l in open('/verif/properties.jsonl')]
checks, na = [], []
for p in props:
    pid = p['id']
    path = '/verif/sa/rules/%s.py' % pid.lower()
    if not os.path.exists(path):
        na.append({'property_id': pid, 'reason': 'check not built yet (work in progress; see DESIGN.md section 4)'})
        continue
    m = importlib.import_module('sa.rules.' + pid.lower())
    meta = m.META
    if meta.get('not_applicable'):
        na.append({'property_id': pid, 'reason': meta['not_applicable']})
        continue
    checks.append({
        'property_id': pid,
        'quick_cmd': '/venv/bin/python -m sa.check %s --tier quick' % pid,
        'thorough_cmd': '/venv/bin/python -m sa.check %s --tier thorough' % pid,
        'evidence_file': '/verif/evidence/%s.json' % pid,
        'replay_cmd_template': '/venv/bin/python -m sa.check %s --replay {path}' % pid,
        'engine': 'sa',
        'level_claimed': {'category': meta.get('level', 'other'), 'text': meta['claim'] + ((' ' + meta['claim_added']) if meta.get('claim_added') else ''),
                          'design_ref': 'DESIGN.md section 4, %s' % pid},
        'level_note': meta['note'],
        'technique': meta['technique'],
    })
man = {
    'version': 1,
    'setup_cmd': '/venv/bin/python -m compileall -q sa',
    'hooks': {'guard': 'YATIML_VERIF', 'enable': 'no hooks are needed: every check reads the sources under /repo as text',
              'baseline_off_cmd': 'cd /repo && /venv/bin/python -m pytest -q -p no:cacheprovider --timeout=900',
              'source_commits': [], 'add_only': True},
    'engines': [{'name': 'sa', 'path': '/verif/sa', 'serves_properties': [c['property_id'] for c in checks],
                 'kind_free_text': 'repository-specific static analysis on Python ast: program model with MRO and import '
                                   'resolution, statement CFG with branch nodes and dominators, guard atoms evaluated over '
                                   'small abstract domains, call graph and effect summaries, constant-table partial evaluation, '
                                   'regex->DFA language decision procedures'}],
    'checks': checks,
    'not_applicable': na,
    'notes': 'All checks are static: they parse /repo/yatiml/*.py and PyYAML\'s sources on every run and never import or '
             'execute them. Exit 2 (ANALYSIS-ERROR) means the analysis could not proceed and is never a pass. '
             'Known findings: /verif/known_findings.json. fix: commits in /repo are listed there as fixed entries. '
             'Thorough tier = quick + the checker self-test of sa/selftest.py (must-fire: test-surviving mutants of '
             'sa/selftest_corpus.json and the seeded changes under /verif/seeded whose meta.json records detection by this '
             'property - rounds 1-5 and 7-12 by their own property, and those round-6 slips that the check tells apart from the '
             'correct twin commit in /verif/extensions; must-stay-silent: 19 behaviour-preserving transformations of sa/refactor.py '
             'and the hand-written behaviour-preserving changes under /verif/benign), all in memory on the current /repo sources; '
             'a self-test disagreement is exit 2. /verif/extensions is an open benchmark of correct non-tidying commits, many of '
             'which the checks still report (DESIGN.md 6.3b, extensions/INDEX.md): a change of algorithm or of documented '
             'behaviour in /repo is expected to need its rules re-confirmed.',
}
json.dump(man, open('/verif/MANIFEST.json', 'w'), indent=1)
print('checks:', [c['property_id'] for c in checks], 'n/a:', len(na))
