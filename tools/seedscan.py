#!/venv/bin/python
"""Confirm candidate seeded changes and run the checks against them.
usage: tools/seedscan.py [--confirm] <dir-with-patch.diff> ...     (dir holds patch.diff, demo.py; e.g. /tmp/seed_out/C03/1 or seeded/C03-1)
 --confirm : also confirm the candidate in a scratch worktree of /repo (tests pass, demo fails with / passes without)
For every candidate: applies the patch to a scratch copy of /repo/yatiml, runs all 18 quick checks in-process against it and
prints which properties raise an unlisted finding (V) or an analysis error (AE)."""
import importlib, json, os, shutil, subprocess, sys, tempfile
sys.path.insert(0, os.environ.get('SA_ROOT', '/verif'))     # SA_ROOT: run a snapshot of the checker while /verif is being edited
from concurrent.futures import ProcessPoolExecutor

CONFIRM = '--confirm' in sys.argv
DIRS = [os.path.abspath(a) for a in sys.argv[1:] if not a.startswith('--')]
PROPS = ['C%02d' % i for i in range(1, 19)]


def sh(cmd, cwd=None, env=None, timeout=900):
    r = subprocess.run(cmd, shell=True, cwd=cwd, capture_output=True, text=True, timeout=timeout,
                       env=dict(os.environ, **(env or {})))
    return r.returncode, (r.stdout + r.stderr)


def run_one(d):
    out = {'dir': d}
    patch = os.path.join(d, 'patch.diff')
    demo = os.path.join(d, 'demo.py')
    if not os.path.exists(patch):
        out['error'] = 'no patch.diff'
        return out
    scratch = tempfile.mkdtemp(prefix='seedscan.', dir='/tmp')
    try:
        if CONFIRM:
            wt = os.path.join(scratch, 'wt')
            rc, o = sh('git -C /repo worktree add --detach %s HEAD -q' % wt)
            try:
                env = {'PYTHONPATH': wt, 'PYTHONDONTWRITEBYTECODE': '1'}
                rc0, o0 = sh('/venv/bin/python %s' % demo, cwd=wt, env=env)
                rc, o = sh('git apply %s' % patch, cwd=wt)
                if rc != 0:
                    out['confirm'] = 'patch does not apply: ' + o[-200:]
                else:
                    rct, ot = sh('/venv/bin/python -m pytest -q -p no:cacheprovider --no-cov tests', cwd=wt, env=env)
                    tail = ot.strip().splitlines()[-1] if ot.strip() else ''
                    rc1, o1 = sh('/venv/bin/python %s' % demo, cwd=wt, env=env)
                    out['confirm'] = {'demo_without': rc0, 'tests': tail, 'demo_with': rc1,
                                      'demo_with_tail': o1.strip().splitlines()[-3:] if o1.strip() else []}
                    out['confirmed'] = (rc0 == 0 and rc1 != 0 and tail.startswith('180 passed'))
            finally:
                sh('git -C /repo worktree remove --force %s' % wt)
        rp = os.path.join(scratch, 'repo')
        os.makedirs(rp)
        shutil.copytree('/repo/yatiml', rp + '/yatiml')
        rc, o = sh('patch -s -p1 < %s' % patch, cwd=rp)
        if rc != 0:
            out['error'] = 'patch failed on /repo copy: ' + o[-200:]
            return out
        os.environ['YATIML_REPO'] = rp
        from sa.model import Program, read_repo_sources, read_yaml_sources, AnalysisError
        from sa import report
        src = read_repo_sources(rp)
        known = report.load_known()
        res = {}
        try:
            P = Program(src, read_yaml_sources(), rp)
        except Exception as e:
            out['error'] = 'program: %r' % e
            return out
        for p in PROPS:
            try:
                from sa.check import run_property
                ctx, mod = run_property(p, 'quick', P=P, quiet=True)     # same policy as the registered command (AE with findings in hand)
                fs = [f for f in ctx.findings() if report.match_known(f, known) is None]
                if fs:
                    res[p] = ['%s %s @%s' % (f.rule, f.construct, f.loc) for f in fs][:4]
            except AnalysisError as e:
                res[p] = 'AE:' + str(e)[:160]
            except Exception as e:
                res[p] = 'EXC:%r' % e
        out['checks'] = res
        return out
    finally:
        shutil.rmtree(scratch, ignore_errors=True)


if __name__ == '__main__':
    with ProcessPoolExecutor(8) as ex:
        results = list(ex.map(run_one, DIRS))
    for r in results:
        name = '/'.join(r['dir'].split('/')[-2:])
        target = None
        for part in r['dir'].replace('-', '/').split('/'):
            if len(part) == 3 and part[0] == 'C' and part[1:].isdigit():
                target = part
        ch = r.get('checks', {})
        fired = [p for p, v in ch.items() if not isinstance(v, str)]
        aes = [p for p, v in ch.items() if isinstance(v, str)]
        status = 'CAUGHT' if target in fired else ('caught-by-other' if fired else ('AE-only' if aes else 'MISSED'))
        print('%-10s %-16s fired=%s ae=%s %s %s' % (name, status, fired, aes, r.get('error', ''),
                                                   ('confirmed=%s %s' % (r.get('confirmed'), r.get('confirm'))) if CONFIRM else ''))
        for p in fired:
            print('      %s: %s' % (p, '; '.join(ch[p])[:300]))
        for p in aes:
            print('      %s: %s' % (p, ch[p][:300]))
    json.dump(results, open(os.environ.get('SEEDSCAN_OUT', '/tmp/seedscan_last.json'), 'w'), indent=1)
