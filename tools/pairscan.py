#!/venv/bin/python
"""pairscan.py Cnn-k ...: run the checks on a round-6 pair (extensions/Cnn-k = the commit done right, seeded/Cnn-r6-k = the same
commit with a slip) and print what the own property's check reports on each, and what distinguishes them."""
import json, os, subprocess, sys
names = sys.argv[1:]
dirs = []
for n in names:
    p, k = n.split('-')
    dirs += ['/verif/extensions/%s-%s' % (p, k), '/verif/seeded/%s-r6-%s' % (p, k)]
subprocess.run(['/venv/bin/python', '/verif/tools/seedscan.py'] + dirs, stdout=subprocess.DEVNULL, stderr=subprocess.DEVNULL)
res = {r['dir']: r for r in json.load(open('/tmp/seedscan_last.json'))}
def keys(r, prop=None):
    out = set()
    for p, v in r.get('checks', {}).items():
        if isinstance(v, str):
            if prop in (None, p): out.add((p, v[:100]))
            continue
        if prop and p != prop: continue
        for f in v: out.add((p, f.split(' @')[0][:150]))
    return out
for n in names:
    p, k = n.split('-')
    g, b = res['/verif/extensions/%s-%s' % (p, k)], res['/verif/seeded/%s-r6-%s' % (p, k)]
    print('==', n, '| good fires:', sorted({x[0] for x in keys(g)}), '| bad fires:', sorted({x[0] for x in keys(b)}))
    for x in sorted(keys(g)): print('   good', x[0], x[1])
    for x in sorted(keys(b, p) - keys(g, p)): print('   BAD-ONLY(own)', x[1])
    oth = sorted(keys(b) - keys(g) - keys(b, p))
    for x in oth[:4]: print('   bad-only(other)', x[0], x[1])
