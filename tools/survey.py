#!/venv/bin/python
"""Scratch tool (not part of any check): mutation survey of /repo/yatiml against the repository's own 180 tests.

Enumerates the single-point mutants of sa/mutate.py for the current /repo sources, runs the test suite on each in 16 scratch
copies under /root/scratch (removed afterwards) and writes /root/scratch/survey2.json: descriptor + survived.
usage: tools/survey.py            (about 7 minutes on 16 cores)
"""
import json, os, queue, shutil, subprocess, sys
sys.path.insert(0, '/verif')
from concurrent.futures import ThreadPoolExecutor
from sa import mutate
from sa.model import read_repo_sources

OUT = '/root/scratch/survey2.json'
W = 16


def main():
    src = read_repo_sources('/repo')
    ds = []
    for mod, text in sorted(src.items()):
        if mod == 'yatiml':
            continue
        ds += mutate.descriptors(mod, text)
    print(len(ds), 'mutants')
    os.makedirs('/root/scratch', exist_ok=True)
    wq = queue.Queue()
    dirs = []
    for w in range(W):
        d = '/root/scratch/sv%d' % w
        shutil.rmtree(d, ignore_errors=True)
        os.makedirs(d)
        shutil.copytree('/repo/yatiml', d + '/yatiml')
        shutil.copytree('/repo/tests', d + '/tests')
        shutil.copy('/repo/pytest.ini', d)
        wq.put(d)
        dirs.append(d)

    def run(item):
        i, m = item
        fn = m['module'].split('.', 1)[1] + '.py'
        try:
            new = mutate.apply(src[m['module']], m)
        except Exception as e:
            return dict(m, id=i, survived=False, tail='does not compile: %r' % e)
        if new is None:
            return dict(m, id=i, survived=False, tail='not applicable')
        d = wq.get()
        try:
            with open(d + '/yatiml/' + fn, 'w') as fh:
                fh.write(new)
            shutil.rmtree(d + '/yatiml/__pycache__', ignore_errors=True)
            try:
                r = subprocess.run(['/venv/bin/python', '-m', 'pytest', '-x', '-q', '-p', 'no:cacheprovider', '--timeout=60',
                                    '--no-cov', 'tests'], cwd=d, capture_output=True, text=True, timeout=300,
                                   env=dict(os.environ, PYTHONDONTWRITEBYTECODE='1'))
                ok = r.returncode == 0
                tail = r.stdout.strip().splitlines()[-1] if r.stdout.strip() else ''
            except subprocess.TimeoutExpired:
                ok, tail = False, 'TIMEOUT'
            shutil.copy('/repo/yatiml/' + fn, d + '/yatiml/' + fn)
            return dict(m, id=i, survived=ok, tail=tail)
        finally:
            wq.put(d)

    with ThreadPoolExecutor(W) as ex:
        res = list(ex.map(run, enumerate(ds)))
    for d in dirs:
        shutil.rmtree(d, ignore_errors=True)
    json.dump(res, open(OUT, 'w'), indent=1)
    print(sum(r['survived'] for r in res), 'of', len(res), 'survive')


if __name__ == '__main__':
    main()
