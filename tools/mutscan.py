#!/venv/bin/python
"""Scratch harness: run the checks in-process on each test-surviving mutant of /root/scratch/survey.json.
usage: tools/mutscan.py [props...]   -> writes /root/scratch/mutscan.json and prints a summary"""
import json, os, sys, time
sys.path.insert(0, '/verif')
from concurrent.futures import ProcessPoolExecutor
from sa.model import Program, read_repo_sources, read_yaml_sources, AnalysisError
from sa import report
import importlib

IDS = None
ARGS = []
for a in sys.argv[1:]:
    if a.startswith('--ids='):
        IDS = {int(x) for x in a[6:].split(',') if x}
    else:
        ARGS.append(a)
PROPS = ARGS or [p[:-3].upper() for p in sorted(os.listdir('/verif/sa/rules')) if p.startswith('c') and p[1:3].isdigit() and p.endswith('.py')]
M = '/root/scratch/mutants'
BASE = read_repo_sources()
YS = read_yaml_sources()
KNOWN = report.load_known()


def run_one(m):
    src = dict(BASE)
    modname = 'yatiml.' + m['file'][:-3]
    src[modname] = open('%s/m%04d.py' % (M, m['id'])).read()
    out = {}
    try:
        P = Program(src, YS)
    except Exception as e:
        return m['id'], {'*': 'parse:%r' % e}
    for p in PROPS:
        mod = importlib.import_module('sa.rules.' + p.lower())
        ctx = report.Context(p, P, 'quick')
        try:
            mod.run(ctx)
            fs = [f for f in ctx.findings() if report.match_known(f, KNOWN) is None]
            if fs:
                out[p] = [f.rule + ' ' + f.construct for f in fs][:3]
        except AnalysisError as e:
            out[p] = 'AE:' + str(e)[:100]
        except Exception as e:
            out[p] = 'EXC:%r' % e
    return m['id'], out


if __name__ == '__main__':
    survey = json.load(open('/root/scratch/survey.json'))
    surv = [m for m in survey if m['survived']]
    if IDS is not None:
        surv = [m for m in survey if m['id'] in IDS]
        with ProcessPoolExecutor(16) as ex:
            for i, r in ex.map(run_one, surv):
                m = [x for x in surv if x['id'] == i][0]
                print('%4d %-16s %-10s L%-4s %s => %s' % (i, m['file'], m['kind'], m['line'], m['src'][:60].replace('\n', ' '), str(r)[:300] if r else 'SILENT'))
        sys.exit(0)
    t = time.time()
    with ProcessPoolExecutor(16) as ex:
        res = dict(ex.map(run_one, surv, chunksize=4))
    caught = {i: r for i, r in res.items() if any(not str(v).startswith(('AE:', 'EXC:')) for v in r.values())}
    ae = {i: r for i, r in res.items() if i not in caught and r}
    print('survivors %d, caught %d, analysis-error only %d, silent %d (%.1fs)' % (len(surv), len(caught), len(ae),
          len(surv) - len(caught) - len(ae), time.time() - t))
    json.dump({'res': {str(k): v for k, v in res.items()}}, open('/root/scratch/mutscan.json', 'w'), indent=1)
    byid = {m['id']: m for m in surv}
    with open('/root/scratch/mutscan_uncaught.txt', 'w') as fh:
        for i in sorted(byid):
            if i not in caught:
                m = byid[i]
                fh.write('%4d %-16s %-10s L%-4s %s %s\n' % (i, m['file'], m['kind'], m['line'], m['src'][:90].replace('\n', ' '),
                                                          ('  <<' + str(res[i])[:120]) if res[i] else ''))
    with open('/root/scratch/mutscan_caught.txt', 'w') as fh:
        for i in sorted(caught):
            m = byid[i]
            fh.write('%4d %-16s %-10s L%-4s %s => %s\n' % (i, m['file'], m['kind'], m['line'], m['src'][:70].replace('\n', ' '),
                                                         str(caught[i])[:160]))
