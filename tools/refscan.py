#!/venv/bin/python
"""Scratch harness: apply every behaviour-preserving operator of sa/refactor.py to the current /repo sources (in memory),
run all checks on each variant and list alarms (= false alarms).  With --tests, also writes each variant to a scratch
copy and runs the repository's test suite on it, to validate the operator itself.
usage: tools/refscan.py [--tests] [ops...]"""
import importlib, json, os, shutil, subprocess, sys, tempfile, time
sys.path.insert(0, '/verif')
from concurrent.futures import ProcessPoolExecutor
from sa.model import Program, read_repo_sources, read_yaml_sources, AnalysisError
from sa import report, refactor

args = [a for a in sys.argv[1:] if not a.startswith('--')]
TESTS = '--tests' in sys.argv
OPS = args or list(refactor.OPERATORS)
PROPS = ['C%02d' % i for i in range(1, 19)]
BASE = read_repo_sources()
YS = read_yaml_sources()
KNOWN = report.load_known()


def run_one(op):
    out = {}
    try:
        src = refactor.apply(op, BASE)
    except Exception as e:
        return op, {'*': 'operator failed: %r' % e}
    try:
        P = Program(src, YS)
    except Exception as e:
        return op, {'*': 'parse:%r' % e}
    for p in PROPS:
        mod = importlib.import_module('sa.rules.' + p.lower())
        ctx = report.Context(p, P, 'quick')
        try:
            mod.run(ctx)
            fs = [f for f in ctx.findings() if report.match_known(f, KNOWN) is None]
            if fs:
                out[p] = [f.rule + ' ' + f.construct for f in fs][:6]
        except AnalysisError as e:
            out[p] = 'AE:' + str(e)[:200]
        except Exception as e:
            import traceback
            out[p] = 'EXC:%r %s' % (e, traceback.format_exc().splitlines()[-3:])
    if TESTS:
        d = tempfile.mkdtemp(prefix='refscan.', dir='/root/scratch')
        try:
            shutil.copytree('/repo/tests', d + '/tests')
            os.makedirs(d + '/yatiml')
            for f in os.listdir('/repo/yatiml'):
                if not f.endswith('.py'):
                    if os.path.isfile('/repo/yatiml/' + f):
                        shutil.copy('/repo/yatiml/' + f, d + '/yatiml/' + f)
            for m, text in src.items():
                fn = '__init__.py' if m == 'yatiml' else m.split('.', 1)[1] + '.py'
                open(d + '/yatiml/' + fn, 'w').write(text)
            r = subprocess.run(['/venv/bin/python', '-m', 'pytest', '-q', '-p', 'no:cacheprovider', '--no-cov', 'tests'],
                               cwd=d, capture_output=True, text=True, env=dict(os.environ, PYTHONDONTWRITEBYTECODE='1'))
            out['tests'] = r.stdout.strip().splitlines()[-1] if r.stdout.strip() else r.stderr[-200:]
        finally:
            shutil.rmtree(d, ignore_errors=True)
    return op, out


if __name__ == '__main__':
    t = time.time()
    with ProcessPoolExecutor(min(16, len(OPS))) as ex:
        res = dict(ex.map(run_one, OPS))
    for op in OPS:
        r = res[op]
        bad = {k: v for k, v in r.items() if k != 'tests'}
        print('%-22s %s %s' % (op, 'SILENT' if not bad else 'ALARMS', r.get('tests', '')))
        for k, v in bad.items():
            print('      %s: %s' % (k, v if isinstance(v, str) else '; '.join(v)))
    print('%.1fs' % (time.time() - t))
