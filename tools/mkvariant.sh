#!/bin/bash
# mkvariant.sh <patch-dir> -> /root/scratch/var/<name> : copy of /repo with the patch applied
p=$(realpath "$1"); name=$(basename "$p"); rm -rf /root/scratch/var/$name; mkdir -p /root/scratch/var; cp -r /repo /root/scratch/var/$name; (cd /root/scratch/var/$name && patch -s -p1 < "$p/patch.diff") && echo /root/scratch/var/$name
