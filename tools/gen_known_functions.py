#!/venv/bin/python
"""Freeze the decomposition of the current /repo tree: sa/known_functions.json (qualified names, normalised bodies, parameters and
full sources of every function of every yatiml module).  Run after /repo itself changed (a fix: commit), never at check time."""
import ast, json, os, subprocess, sys
os.environ['SA_NO_INLINE'] = '1'
sys.path.insert(0, '/verif')
from sa import inline
from sa.model import read_repo_sources

src = read_repo_sources('/repo')
out = {'_comment': 'frozen by tools/gen_known_functions.py from /repo at %s' % subprocess.run(
    ['git', '-C', '/repo', 'rev-parse', '--short', 'HEAD'], capture_output=True, text=True).stdout.strip(), 'modules': {}}
for name, text in sorted(src.items()):
    tree = ast.parse(text)
    fns, bodies, params, sources = [], {}, {}, {}
    for q, fn, cls, _ in inline._scopes(tree):
        fns.append(q)
        bodies[q] = inline._body_text(fn, fn.name)
        a = fn.args
        params[q] = [x.arg for x in a.posonlyargs + a.args]
        sources[q] = ast.unparse(fn)
    out['modules'][name] = {'functions': sorted(fns), 'bodies': bodies, 'params': params, 'sources': sources}
json.dump(out, open('/verif/sa/known_functions.json', 'w'), indent=0)
print('frozen', sum(len(m['functions']) for m in out['modules'].values()), 'functions')
