#!/bin/bash
# usage: tools/rebase_patch.sh <old-commit> <patch.diff> ...  - re-express corpus patches written against <old-commit> of /repo against /repo HEAD
# (apply on a scratch worktree at <old-commit>, commit, cherry-pick old..HEAD on top with 3-way merge, diff against HEAD). Conflicts are reported, not guessed.
OLD=$1; shift
for P in "$@"; do
  P=$(readlink -f "$P"); W=$(mktemp -d /tmp/rebase.XXXXXX)
  git -C /repo worktree add --detach -q $W/wt $OLD || exit 3
  ( cd $W/wt && patch -s -p1 < "$P" && git add -A && git -c user.name=x -c user.email=x@x commit -qam corpus \
    && git -c user.name=x -c user.email=x@x cherry-pick -n $OLD..$(git -C /repo rev-parse HEAD) >/dev/null 2>&1 \
    && git diff $(git -C /repo rev-parse HEAD) -- yatiml > $W/new.diff && [ -s $W/new.diff ] && cp $W/new.diff "$P" && echo "rebased $P" ) || echo "CONFLICT $P"
  git -C /repo worktree remove --force $W/wt; rm -rf $W
done
