#!/venv/bin/python
"""After `tools/seedscan.py [--confirm] dirs...` (results in /tmp/seedscan_last.json):
  import_seeds.py import <round> <source text>   copy every *confirmed* candidate /x/Cnn/k to /verif/seeded/Cnn-r<round>-k with a meta.json
  import_seeds.py record                          write the `detected_by` of the last scan into the meta.json of the scanned /verif/seeded entries
"""
import json, os, shutil, sys

V = '/verif/seeded'
res = json.load(open('/tmp/seedscan_last.json'))
mode = sys.argv[1]
if mode == 'import':
    rnd, source = sys.argv[2], sys.argv[3]
    for r in res:
        d = r['dir']
        if not r.get('confirmed'):
            print('skip (not confirmed):', d)
            continue
        prop, k = d.rstrip('/').split('/')[-2:]
        dst = os.path.join(V, '%s-r%s-%s' % (prop, rnd, k))
        os.makedirs(dst, exist_ok=True)
        for fn in ('patch.diff', 'demo.py', 'notes.md'):
            if os.path.exists(os.path.join(d, fn)):
                shutil.copy(os.path.join(d, fn), os.path.join(dst, fn))
        notes = open(os.path.join(d, 'notes.md')).read() if os.path.exists(os.path.join(d, 'notes.md')) else ''
        c = r['confirm']
        meta = {'property': prop, 'round': int(rnd), 'source': source, 'needs_to_manifest': notes.strip(),
                'confirmed': {'how': 'tools/seedscan.py --confirm: scratch git worktree of /repo HEAD; demo.py on the original tree, git apply '
                                     'patch.diff, the 180-test suite, demo.py on the changed tree; worktree removed afterwards',
                              'demo_exit_without_patch': c['demo_without'], 'test_suite_with_patch': c['tests'],
                              'demo_exit_with_patch': c['demo_with']},
                'detected_by': {}, 'detected_by_own_property_check': False}
        json.dump(meta, open(os.path.join(dst, 'meta.json'), 'w'), indent=1)
        print('imported', dst)
elif mode == 'record':
    for r in res:
        d = r['dir']
        mp = os.path.join(d, 'meta.json')
        if not d.startswith(V) or not os.path.exists(mp):
            continue
        meta = json.load(open(mp))
        det = {p: v for p, v in r.get('checks', {}).items() if not isinstance(v, str)}
        meta['detected_by'] = det
        meta['detected_by_own_property_check'] = meta['property'] in det
        json.dump(meta, open(mp, 'w'), indent=1)
        print(os.path.basename(d), 'own' if meta['detected_by_own_property_check'] else 'NOT-OWN', sorted(det))
